package main

import (
	"fmt"
	"go/ast"
	"go/constant"
	"go/token"
	"go/types"
	"os"
	"sort"
	"strings"

	"golang.org/x/tools/go/ssa"
)

func init() { register("C03", c03) }

// trampolineBuilder: the function in patch that writes text at an address given by a parameter (the placeholder).
func trampolineBuilder(p *Prog) (*ssa.Function, textWriteSite) {
	for _, s := range p.textWriteSites() {
		if relPkg(s.Fn) == "internal/patch" && s.Kind == "other" {
			return s.Fn, s
		}
	}
	return nil, textWriteSite{}
}

func c03(c *Ctx) {
	p, r := c.K1(), c.R
	r.Expl = "Structural clauses behind 'the origin placeholder runs the unmodified original' (that relocated instructions execute like the originals is CPU semantics and is not decided): (R1) because the re-encoder can return more bytes than it consumed (short branches are widened), the address correction it receives in the relocation loop depends on the number of bytes already emitted, and is origin−new location; (R2) the jump back goes from trampoline+len(relocated bytes) to origin+consumed input length; (R3) the size guard and the no-branch-into-the-prefix check dominate the placeholder write, nothing can fail after it, and at least len(jump) bytes are relocated; (R4) the widening table maps exactly 0x70+cc→0F 80+cc and EB→E9 and the widened displacement is corrected by the growth of operand and opcode; (R5) the placeholder variable is re-pointed at the address the relocated code was written to; (R6) goom's own little-endian readers/writers are bit-exact (abstract evaluation over symbolic bits); (R7) every result of the re-encoder is opcode bytes followed by displacement bytes, the displacement rewritten on the way from (old displacement, correction) by a writer of the arm's width, and the displacement reader picks the reader of each width; (R8) an overflow predicate that lets a displacement be rewritten in place answers false only for values that fit that width."
	r.RuleText = "one obligation per (rule, call site / table entry / return)"
	r.Floor("C03.R1", 2)
	r.Floor("C03.R2", 2)
	r.Floor("C03.R3", 3)
	r.Floor("C03.R4", 3)
	r.Floor("C03.R5", 3)
	tb, wsite := trampolineBuilder(p)
	if tb == nil {
		r.Und("C03.R2", "trampoline builder", "", "no function of package patch writes text at a parameter address")
		return
	}
	encode := p.Fn("internal/bytecode", "EncodeAddress")
	if encode == nil {
		r.Und("C03.R1", "re-encoder", "", "bytecode.EncodeAddress not found")
		return
	}
	// ---- R6 little-endian helpers, R7 arms of the re-encoder and of the displacement reader
	r.Floor("C03.R6", 4)
	r.Floor("C03.R7", 6)
	c03Helpers(p, r)
	c03Arms(p, r, encode)
	c03Overflow(p, r, encode)
	r.Floor("C03.R9", 3)
	c03TargetOffsets(p, r)
	c03MeasuredReads(p, r)
	c03PrefixFromZero(p, r)
	c03TailKept(p, r, encode)
	r.Floor("C03.R10", 2)
	c03OriginRecorded(p, r)
	// ---- R4 widening table
	widen := c03Table(p, r)
	// ---- R1 relocation loop: function that appends the result of a call reaching the re-encoder
	reachEnc := p.modReachers(encode)
	var loopFn *ssa.Function
	var fixCall *ssa.Call
	var acc *ssa.Phi
	for _, f := range p.FuncsIn("internal/patch") {
		eachInstr(f, func(i ssa.Instruction) {
			cl, ok := i.(*ssa.Call)
			if !ok {
				return
			}
			bi, ok := cl.Call.Value.(*ssa.Builtin)
			if !ok || bi.Name() != "append" {
				return
			}
			// the appended bytes come from a call that reaches the re-encoder (possibly merged with nil on error paths)
			var src *ssa.Call
			for _, a := range origins(cl.Call.Args[1]) {
				switch x := a.V.(type) {
				case *ssa.Call:
					if cal := staticCallee(x.Common()); cal != nil && reachEnc[cal] && cal != encode {
						src = x
					}
				case *ssa.Extract:
					if x2, isC := x.Tuple.(*ssa.Call); isC && x.Index == 0 {
						if cal := staticCallee(x2.Common()); cal != nil && reachEnc[cal] && cal != encode {
							src = x2
						}
					}
				}
			}
			if src == nil {
				return
			}
			if ph, ok := resolveLocal(cl.Call.Args[0]).(*ssa.Phi); ok {
				loopFn, fixCall, acc = f, src, ph
			}
		})
	}
	if loopFn == nil {
		r.Und("C03.R1", "relocation loop", "", "no loop appends the output of the per-instruction fixer")
	} else {
		fixer := staticCallee(fixCall.Common())
		isAccLen := func(v ssa.Value) bool {
			cl, ok := v.(*ssa.Call)
			if !ok || !isLenCall(cl) {
				return false
			}
			return cl.Call.Args[0] == ssa.Value(acc)
		}
		canGrow := len(widen) > 0
		dep := false
		for _, a := range fixCall.Call.Args {
			if dependsOn(a, isAccLen) {
				dep = true
			}
		}
		if canGrow {
			r.Check(dep, "C03.R1", "address correction tracks the output cursor in "+shortName(loopFn), p.Pos(posOf(fixCall)), "an argument of "+shortName(fixer)+" depends on len(output so far)",
				"the per-instruction fixer receives the same origin/trampoline bases for every instruction although widened branches make the output longer than the input: every PC-relative instruction after a widened short branch is relocated off by the growth (e.g. `cmp;jbe;push;mov;call` — the call lands 4 bytes beside its target)")
			// and exactly: (new-location argument) − (origin argument) = trampoline − origin + len(output so far) − input position,
			// every term once
			var uptrs []*ssa.Parameter
			for _, pr := range loopFn.Params {
				if isUintptr(pr.Type()) {
					uptrs = append(uptrs, pr)
				}
			}
			if len(uptrs) >= 2 {
				k := NewKeyer(loopFn)
				diff := map[string]int64{}
				var konst int64
				for _, a := range fixCall.Call.Args {
					if !isIntegerType(a.Type()) {
						continue
					}
					form := map[string]int64{}
					var kc int64
					linForm(k, a, 1, form, &kc, 0)
					sign := int64(0)
					switch {
					case form[k.Key(uptrs[1])] != 0 && form[k.Key(uptrs[0])] == 0:
						sign = 1
					case form[k.Key(uptrs[0])] != 0 && form[k.Key(uptrs[1])] == 0:
						sign = -1
					}
					for key, c := range form {
						diff[key] += sign * c
					}
					konst += sign * kc
				}
				okExact := konst == 0 && diff[k.Key(uptrs[1])] == 1 && diff[k.Key(uptrs[0])] == -1
				nLen, nPos := int64(0), int64(0)
				for key, c := range diff {
					if c == 0 || key == k.Key(uptrs[0]) || key == k.Key(uptrs[1]) {
						continue
					}
					if strings.HasPrefix(key, "len(") {
						nLen += c
					} else {
						nPos += c
					}
				}
				if os.Getenv("GOOMVET_DEBUG") != "" {
					fmt.Println("C03.R1 diff", diff, konst)
				}
				okExact = okExact && nLen == 1 && nPos == -1
				r.Check(okExact, "C03.R1", "correction counts the growth once and with the right sign in "+shortName(loopFn), p.Pos(posOf(fixCall)), "new location − origin = trampoline − origin + len(output) − input position",
					"the growth of the output over the input enters the address correction with the wrong sign or weight: every PC-relative instruction after a widened short branch is relocated off by twice the growth")
			}
		} else {
			r.OK("C03.R1", "address correction tracks the output cursor in "+shortName(loopFn), p.Pos(posOf(fixCall)), "re-encoder never grows instructions")
		}
		// add operand of the re-encoder = origin − trampoline, in that order
		for _, cs := range p.callersOf(encode) {
			add := cs.Instr.Common().Args[len(cs.Instr.Common().Args)-1]
			okDir := false
			var walk func(v ssa.Value) *ssa.BinOp
			walk = func(v ssa.Value) *ssa.BinOp {
				switch x := resolveLocal(v).(type) {
				case *ssa.BinOp:
					if x.Op == token.SUB {
						return x
					}
				case *ssa.Convert:
					return walk(x.X)
				case *ssa.ChangeType:
					return walk(x.X)
				}
				return nil
			}
			if bo := walk(add); bo != nil {
				fromP := func(name string) func(ssa.Value) bool {
					return func(v ssa.Value) bool { pr, ok := v.(*ssa.Parameter); return ok && pr.Name() == name }
				}
				// X depends on the origin-side parameter, Y on the trampoline-side parameter
				var xs, ys []string
				for _, pr := range cs.Caller.Params {
					if dependsOn(bo.X, fromP(pr.Name())) {
						xs = append(xs, pr.Name())
					}
					if dependsOn(bo.Y, fromP(pr.Name())) {
						ys = append(ys, pr.Name())
					}
				}
				if len(xs) == 1 && len(ys) == 1 && xs[0] != ys[0] {
					// which is which: the trampoline-side parameter at the loop's call site is the one that received the builder's placeholder address
					okDir = c03IsOriginSide(cs.Caller, xs[0], fixCall, loopFn) && !c03IsOriginSide(cs.Caller, ys[0], fixCall, loopFn)
				}
			}
			r.Check(okDir, "C03.R1", "correction is origin − new location in "+shortName(cs.Caller), p.Pos(posOf(cs.Instr)), "add = from − trampoline",
				"the displacement correction passed to the re-encoder is not (original address − relocated address): relocated calls and RIP-relative operands point to the wrong address")
		}
	}
	// ---- R2 jump-back operands
	// The code generator (the function that calls the 3-result fixer and the jump-back emitter) may be the function that
	// writes the placeholder or a helper of it: the write site is lifted to its callers to connect the two.
	gen := tb
	for _, f := range p.FuncsIn("internal/patch") {
		hasFix, hasEmit := false, false
		eachInstr(f, func(i ssa.Instruction) {
			if cl, ok := i.(*ssa.Call); ok {
				if cal := staticCallee(cl.Common()); cal != nil {
					if relPkg(cal) == "internal/patch" && cal.Signature.Results().Len() == 3 {
						hasFix = true
					}
					for _, e := range emitterFuncs(p) {
						if e == cal {
							hasEmit = true
						}
					}
				}
			}
		})
		if hasFix && hasEmit {
			gen = f
		}
	}
	lifted := p.liftSites(liftedSite{wsite.Fn, wsite.Call, []ssa.Value{wsite.AddrV, wsite.DataV}}, 3)
	var fixerCall *ssa.Call // the call in the generator returning (fixedData, size, err)
	eachInstr(gen, func(i ssa.Instruction) {
		if cl, ok := i.(*ssa.Call); ok {
			if cal := staticCallee(cl.Common()); cal != nil && relPkg(cal) == "internal/patch" && cal.Signature.Results().Len() == 3 {
				fixerCall = cl
			}
		}
	})
	var jb *ssa.Call
	eachInstr(gen, func(i ssa.Instruction) {
		if cl, ok := i.(*ssa.Call); ok {
			if cal := staticCallee(cl.Common()); cal != nil {
				for _, e := range emitterFuncs(p) {
					if e == cal {
						jb = cl
					}
				}
			}
		}
	})
	if fixerCall == nil || jb == nil {
		r.Und("C03.R2", "jump back in "+shortName(gen), p.Pos(gen.Pos()), "fixer call or jump-back emitter call not found in the trampoline builder")
	} else {
		ext := func(k int) func(ssa.Value) bool {
			return func(v ssa.Value) bool {
				ex, ok := v.(*ssa.Extract)
				return ok && ex.Tuple == ssa.Value(fixerCall) && ex.Index == k
			}
		}
		lenOfData := func(v ssa.Value) bool {
			cl, ok := v.(*ssa.Call)
			return ok && isLenCall(cl) && dependsOn(cl.Call.Args[0], ext(0))
		}
		isParam := func(k int) func(ssa.Value) bool {
			return func(v ssa.Value) bool { return k >= 0 && v == ssa.Value(gen.Params[k]) }
		}
		// which param of the generator is the placeholder: the one that is (or receives the same value as) the address of the text write
		trIdx, orIdx := -1, -1
		for _, ls := range lifted {
			if ls.Vals[0] == nil {
				continue
			}
			addr := resolveLocal(ls.Vals[0])
			if ls.Fn == gen {
				for k, pr := range gen.Params {
					if addr == ssa.Value(pr) {
						trIdx = k
					}
				}
				continue
			}
			eachInstr(ls.Fn, func(i ssa.Instruction) {
				if cl, ok := i.(*ssa.Call); ok && staticCallee(cl.Common()) == gen {
					for k, a := range cl.Call.Args {
						if resolveLocal(a) == addr {
							trIdx = k
						}
					}
				}
			})
		}
		for k := range gen.Params {
			if k != trIdx && isUintptr(gen.Params[k].Type()) {
				orIdx = k
				break
			}
		}
		a0, a1 := jb.Call.Args[0], jb.Call.Args[1]
		cut := func(v ssa.Value) bool { ex, ok := v.(*ssa.Extract); return ok && ex.Tuple == ssa.Value(fixerCall) }
		dep := func(v ssa.Value, t func(ssa.Value) bool) bool { return dependsOnCut(v, t, cut) }
		ok0 := trIdx >= 0 && dep(a0, isParam(trIdx)) && dependsOn(a0, lenOfData) && !dep(a0, ext(1)) && !dep(a0, isParam(orIdx))
		ok1 := orIdx >= 0 && dep(a1, isParam(orIdx)) && dep(a1, ext(1)) && !dependsOn(a1, lenOfData) && !dep(a1, isParam(trIdx))
		r.Check(ok0, "C03.R2", "jump-back source in "+shortName(gen), p.Pos(posOf(jb)), "placeholder + len(relocated bytes)",
			"the jump back is assembled for a source address other than placeholder+len(relocated bytes): its rel32 displacement is computed from the wrong place")
		r.Check(ok1, "C03.R2", "jump-back destination in "+shortName(gen), p.Pos(posOf(jb)), "origin + consumed input length",
			"the jump back does not target origin+consumed input length (it uses the output length or the wrong base): execution resumes in the middle of an instruction or re-runs relocated ones")
		// plain + for both
		for k, a := range []ssa.Value{a0, a1} {
			bo, ok := resolveLocal(a).(*ssa.BinOp)
			r.Check(ok && bo.Op == token.ADD, "C03.R2", fmt.Sprintf("jump-back operand %d is base+length", k), p.Pos(posOf(jb)), "", "jump-back operand is not base + length")
		}
		// the jump-back is appended to the relocated bytes and that is what gets written
		okApp := false
		for _, ls := range lifted {
			if ls.Vals[1] == nil {
				continue
			}
			ats := originsDeep(ls.Vals[1], 3)
			isPar := false
			for _, a := range ats {
				if pr, ok := a.V.(*ssa.Parameter); ok && a.Kind == "param" && pr.Parent() == ls.Fn {
					isPar = true
				}
			}
			if isPar {
				continue // look one level up
			}
			for _, a := range ats {
				if cl, ok := a.V.(*ssa.Call); ok {
					if bi, ok := cl.Call.Value.(*ssa.Builtin); ok && bi.Name() == "append" {
						if dependsOn(cl.Call.Args[0], ext(0)) && resolveLocal(cl.Call.Args[1]) == ssa.Value(jb) {
							okApp = true
						}
					}
				}
			}
			break
		}
		r.Check(okApp, "C03.R2", "written bytes = relocated bytes + jump back in "+shortName(tb), p.Pos(posOf(wsite.Call)), "append(relocated, jumpBack...)",
			"the bytes written into the placeholder are not the relocated instructions followed by the jump back")
	}
	// ---- R3 checks precede the write / at least len(jump) bytes relocated
	if fixerCall != nil {
		fx := staticCallee(fixerCall.Common())
		// inside the fixer: success result comes from a relocation pass dominated by a passed branch-back check
		var passes []*ssa.Call
		var checks []*ssa.Call
		eachInstr(fx, func(i ssa.Instruction) {
			if cl, ok := i.(*ssa.Call); ok {
				if cal := staticCallee(cl.Common()); cal != nil && relPkg(cal) == "internal/patch" {
					if cal == loopFn {
						passes = append(passes, cl)
					} else if cal.Signature.Results().Len() == 1 && errIndex(cal.Signature) == 0 {
						checks = append(checks, cl)
					}
				}
			}
		})
		okChk := false
		var final *ssa.Call
		for _, ret := range returnsOf(fx) {
			for _, a := range origins(retResult(ret, 0)) {
				if ex, ok := a.V.(*ssa.Extract); ok {
					if cl, ok := ex.Tuple.(*ssa.Call); ok && staticCallee(cl.Common()) == loopFn {
						final = cl
					}
				}
			}
		}
		if final != nil {
			for _, ck := range checks {
				if domInstr(ck, final) && errNilGuarded(final.Block(), ck) {
					okChk = true
					// the check is told how many input bytes are relocated: its bound argument comes from the probing pass
					okArg := false
					for _, a := range ck.Call.Args {
						for _, at := range origins(a) {
							if ex, ok := at.V.(*ssa.Extract); ok && ex.Index == 1 {
								if cl, ok := ex.Tuple.(*ssa.Call); ok && staticCallee(cl.Common()) == loopFn {
									okArg = true
								}
							}
						}
					}
					r.Check(okArg, "C03.R3", "branch-back check bounded by the relocated length in "+shortName(fx), p.Pos(posOf(ck)), "check covers [0, consumed length)", "the branch-back check is not given the number of relocated input bytes")
				}
			}
		}
		if final != nil {
			// every integer argument of the real pass derives from the probing pass's consumed length
			okSz, nInt := true, 0
			for _, a := range final.Call.Args {
				if !isIntegerType(a.Type()) || isUintptr(a.Type()) {
					continue
				}
				nInt++
				fromProbe := false
				for _, at := range origins(a) {
					if ex, ok := at.V.(*ssa.Extract); ok && ex.Index == 1 {
						if cl, ok := ex.Tuple.(*ssa.Call); ok && staticCallee(cl.Common()) == loopFn && cl != final {
							fromProbe = true
						}
					}
				}
				if !fromProbe {
					okSz = false
				}
			}
			r.Check(okSz && nInt >= 1, "C03.R3", "real relocation pass bounded by the relocated prefix in "+shortName(fx), p.Pos(posOf(final)), "both size arguments = consumed length of the probing pass",
				"the real relocation pass is told a block size other than the number of bytes actually relocated: a branch from the copied prologue into the un-copied rest of the function is treated as internal and copied verbatim, so in the placeholder it jumps into stale bytes")
		}
		r.Check(okChk, "C03.R3", "branch-back check dominates relocation in "+shortName(fx), p.Pos(fx.Pos()), "relocated bytes are produced only after the check returned nil",
			"the relocated prologue is produced without a passed 'no branch back into the overwritten prefix' check: a loop back-edge into the first bytes would jump into the middle of the entry jump")
		// the builder passes the jump length as the minimum to relocate, and the loop's early return honours it
		if loopFn != nil {
			k := NewKeyer(loopFn)
			okLeast := false
			for _, ret := range returnsOf(loopFn) {
				if !isNilConst(retResult(ret, 2)) {
					continue
				}
				m := NewDBM()
				guardsToDBM(m, k, ret.Block())
				pos := k.TermOf(retResult(ret, 1))
				for _, pr := range loopFn.Params {
					if isIntegerType(pr.Type()) && m.EntailsLE(Term{pr.Name(), 0}, pos) && pr.Name() != pos.Var {
						okLeast = true
					}
				}
			}
			r.Check(okLeast, "C03.R3", "early stop only after the minimum length in "+shortName(loopFn), p.Pos(loopFn.Pos()), "returns the consumed length only when ≥ the requested minimum",
				"the relocation loop can stop before the minimum number of bytes (the jump length) was relocated: the entry jump overwrites instructions that were not copied")
		}
		// minimum = len(jump bytes) from the installer
		if inst := patchInstaller(p); inst != nil {
			okMin := false
			eachInstr(inst, func(i ssa.Instruction) {
				if cl, ok := i.(*ssa.Call); ok {
					if cal := staticCallee(cl.Common()); cal != nil && p.modReach(cal)[tb] {
						for _, a := range cl.Call.Args {
							if lc, ok := resolveLocal(a).(*ssa.Call); ok && isLenCall(lc) {
								for _, at := range origins(lc.Call.Args[0]) {
									if at.Kind == "call" && strings.Contains(at.Name, shortNameOf(jumpGenerator(p))) {
										okMin = true
									}
									// or the recorded jump bytes themselves (the field the generator's result is stored in)
									if _, fv, isF := fieldRef(at.V); isF && fv != nil && fv == p.patchRoles().PInstall {
										okMin = true
									}
								}
							}
						}
					}
				}
			})
			// what is relocated must be the function's own prologue: a patch registered earlier for this origin is restored
			// before the prologue is read (otherwise the placeholder receives a copy of the previous mock's jump)
			eachInstr(inst, func(i ssa.Instruction) {
				if cl, ok := i.(*ssa.Call); ok {
					if cal := staticCallee(cl.Common()); cal != nil && p.modReach(cal)[tb] {
						r.Check(prevPatchRestoredBefore(p, inst, cl), "C03.R3", "previous patch restored before the prologue is relocated in "+shortName(inst), p.Pos(posOf(cl)), "if registered(origin) { restore(origin) } dominates the relocation",
							"the prologue is relocated into the placeholder before a previously registered patch of the same origin was restored: the placeholder receives a copy of the earlier mock's entry jump and calling it enters that mock instead of the original")
					}
				}
			})
			r.Check(okMin, "C03.R3", "minimum relocated length = len(jump) in "+shortName(inst), p.Pos(inst.Pos()), "len(jumpData) is passed down", "the trampoline builder is not told the entry-jump length as the minimum number of bytes to relocate")
		}
	}
	// ---- R5 placeholder re-pointed
	// the value recorded as the relocated-origin address is the address the relocated code was written to: compare, in the
	// function that records it, the provenance of the stored value with that of the (lifted) write address
	okRet, nRet := true, 0
	if pf := p.patchRoles().PFixOrigin; pf != nil {
		for _, fs := range storesToField(p.Funcs, func(fv *types.Var, _ ssa.Value) bool { return fv == pf }) {
			for _, ls := range lifted {
				if ls.Fn != fs.Fn || ls.Vals[0] == nil {
					continue
				}
				nRet++
				want := map[ssa.Value]bool{}
				for _, a := range originsDeep(ls.Vals[0], 4) {
					want[a.V] = true
				}
				for _, a := range originsDeep(fs.Store.Val, 4) {
					if c, isC := a.V.(*ssa.Const); isC && a.Kind == "const" && (c.Value == nil || c.Int64() == 0) {
						continue // the zero returned beside an error
					}
					if !want[a.V] {
						okRet = false
					}
				}
			}
		}
	}
	if nRet == 0 {
		okRet = false
	}
	r.Check(okRet, "C03.R5", "recorded relocated-origin address is the address written in "+shortName(tb), p.Pos(tb.Pos()), "value stored = placeholder address of the text write", "the address recorded as the relocated origin is not the one the relocated code was written to")
	gt := guardType(p)
	pt := p.patchRoles().Patch
	if gt != nil && pt != nil && p.patchRoles().GFixOrigin != nil && p.patchRoles().PFixOrigin != nil {
		gf := p.patchRoles().GFixOrigin
		for _, fs := range storesToField(p.Funcs, func(fv *types.Var, _ ssa.Value) bool { return fv == gf }) {
			ok := allAtoms(origins(fs.Store.Val), func(a Atom) bool {
				_, fv, okF := fieldRef(a.V)
				return a.Kind == "field" && okF && fv == p.patchRoles().PFixOrigin
			})
			r.Check(ok, "C03.R5", "Guard.fixOriginPtr set in "+shortName(fs.Fn), p.Pos(posOf(fs.Store)), "copied from patch.fixOriginPtr", "guard's relocated-origin address does not come from the patch")
		}
		pf := p.patchRoles().PFixOrigin
		for _, fs := range storesToField(p.Funcs, func(fv *types.Var, _ ssa.Value) bool { return fv == pf }) {
			ok := allAtoms(origins(fs.Store.Val), func(a Atom) bool { return a.Kind == "call" && strings.HasSuffix(a.Name, "#0") })
			r.Check(ok, "C03.R5", "patch.fixOriginPtr set in "+shortName(fs.Fn), p.Pos(posOf(fs.Store)), "result of the trampoline builder", "patch's relocated-origin address is not the trampoline builder's result")
		}
	}
	for _, f := range p.FuncsIn("internal/proxy") {
		for _, cs := range callsTo(f, qual("internal/unexports2", "CreateFuncForCodePtr")) {
			args := callCommon(cs).Args
			okP := false
			for _, a := range origins(args[1]) {
				if a.Kind == "call" && strings.HasSuffix(a.Name, ".FixOriginFunc") {
					okP = true
				}
			}
			okV := false
			if pr, ok := peel(args[0]).(*ssa.Parameter); ok {
				// the same parameter is handed to the patch call as trampoline
				eachInstr(f, func(i ssa.Instruction) {
					if cl, ok := i.(*ssa.Call); ok {
						if cal := staticCallee(cl.Common()); cal != nil && relPkg(cal) == "internal/patch" {
							if len(cl.Call.Args) > 0 && peel(cl.Call.Args[len(cl.Call.Args)-1]) == ssa.Value(pr) {
								okV = true
							}
						}
					}
				})
			}
			r.Check(okP && okV, "C03.R5", "placeholder re-pointed in "+shortName(f), p.Pos(posOf(cs)), "CreateFuncForCodePtr(placeholder, guard.FixOriginFunc())",
				"the placeholder variable is not re-pointed at the relocated code of the same patch")
			// … and on the side of a validity test of the placeholder where it IS valid
			okSide := true
			for _, g := range guardsAt(cs.Block()) {
				gc, isCall := g.Cond.(*ssa.Call)
				if !isCall {
					continue
				}
				cal := staticCallee(gc.Common())
				if cal == nil || relPkg(cal) != "internal/bytecode" || len(gc.Call.Args) != 1 || !isBool(cal.Signature.Results().At(0).Type()) {
					continue
				}
				if resolveLocal(gc.Call.Args[0]) == resolveLocal(callCommon(cs).Args[0]) && !g.Pol {
					okSide = false
				}
			}
			r.Check(okSide, "C03.R5", "placeholder re-pointed when it is valid in "+shortName(f), p.Pos(posOf(cs)), "not on the failing side of the placeholder's validity test",
				"the placeholder is re-pointed only when it is NOT a usable pointer and left alone when it is: a valid origin placeholder keeps its own body and never runs the original")
		}
	}
	// CreateFuncForCodePtr stores the code pointer into a fresh func value and assigns it through the pointer
	if cf := p.Fn("internal/unexports2", "CreateFuncForCodePtr"); cf != nil {
		okS := false
		eachInstr(cf, func(i ssa.Instruction) {
			if st, ok := i.(*ssa.Store); ok {
				if fa, ok := st.Addr.(*ssa.FieldAddr); ok && fieldVar(fa.X.Type(), fa.Field).Name() == "CodePtr" && resolveLocal(st.Val) == ssa.Value(cf.Params[1]) {
					okS = true
				}
			}
		})
		r.Check(okS, "C03.R5", "CreateFuncForCodePtr stores the code pointer", p.Pos(cf.Pos()), "funcval.fn = codePtr", "the new function value's code pointer is not set to the given address")
	}
}

func shortNameOf(f *ssa.Function) string {
	if f == nil {
		return "\x00"
	}
	return f.Name()
}

func isUintptr(t types.Type) bool {
	b, ok := t.Underlying().(*types.Basic)
	return ok && b.Kind() == types.Uintptr
}

// c03IsOriginSide: parameter named pname of the fixer receives, at the loop's call site, a value derived from the loop function's
// origin-side parameter (the one that is NOT combined with the output length / not the placeholder).
func c03IsOriginSide(fixer *ssa.Function, pname string, call *ssa.Call, loopFn *ssa.Function) bool {
	if staticCallee(call.Common()) != fixer {
		return false
	}
	idx := -1
	for k, pr := range fixer.Params {
		if pr.Name() == pname {
			idx = k
		}
	}
	if idx < 0 {
		return false
	}
	arg := call.Call.Args[idx]
	// origin side = depends on the loop function's first uintptr parameter (from), not on the one named/positioned as trampoline
	var uptrs []*ssa.Parameter
	for _, pr := range loopFn.Params {
		if isUintptr(pr.Type()) {
			uptrs = append(uptrs, pr)
		}
	}
	if len(uptrs) < 2 {
		return false
	}
	return dependsOn(arg, func(v ssa.Value) bool { return v == ssa.Value(uptrs[0]) }) && !dependsOn(arg, func(v ssa.Value) bool { return v == ssa.Value(uptrs[1]) })
}

// c03Table evaluates the opcode-widening table and checks it against the ISA; returns the keys.
func c03Table(p *Prog, r *Report) map[int64][]int64 {
	pk := p.Pkg("internal/bytecode")
	out := map[int64][]int64{}
	if pk == nil {
		r.Und("C03.R4", "widening table", "", "package bytecode not found")
		return out
	}
	var lit *ast.CompositeLit
	var pos token.Pos
	for _, f := range pk.Syntax {
		ast.Inspect(f, func(n ast.Node) bool {
			vs, ok := n.(*ast.ValueSpec)
			if !ok || len(vs.Values) != 1 {
				return true
			}
			cl, ok := vs.Values[0].(*ast.CompositeLit)
			if !ok {
				return true
			}
			tv := pk.TypesInfo.TypeOf(cl)
			mt, ok := tv.Underlying().(*types.Map)
			if !ok {
				return true
			}
			if sl, ok := mt.Elem().Underlying().(*types.Slice); ok && isByte(sl.Elem()) && isIntegerType(mt.Key()) {
				lit, pos = cl, vs.Pos()
			}
			return true
		})
	}
	if lit == nil {
		r.Und("C03.R4", "widening table", "", "no map[int][]byte literal in package bytecode")
		return out
	}
	for _, e := range lit.Elts {
		kv, ok := e.(*ast.KeyValueExpr)
		if !ok {
			continue
		}
		kval := pk.TypesInfo.Types[kv.Key].Value
		if kval == nil {
			r.Und("C03.R4", "widening table key", p.Pos(kv.Pos()), "non-constant key")
			continue
		}
		k, _ := constant.Int64Val(kval)
		var vals []int64
		if vl, ok := kv.Value.(*ast.CompositeLit); ok {
			for _, x := range vl.Elts {
				if v := pk.TypesInfo.Types[x].Value; v != nil {
					iv, _ := constant.Int64Val(v)
					vals = append(vals, iv)
				}
			}
		}
		out[k] = vals
	}
	var keys []int64
	for k := range out {
		keys = append(keys, k)
	}
	sort.Slice(keys, func(i, j int) bool { return keys[i] < keys[j] })
	for _, k := range keys {
		v := out[k]
		cons := fmt.Sprintf("widening entry %#x", k)
		switch {
		case k >= 0x70 && k <= 0x7F:
			r.Check(len(v) == 2 && v[0] == 0x0F && v[1] == 0x80+(k-0x70), "C03.R4", cons, p.Pos(pos), fmt.Sprintf("Jcc rel8 %#x → 0F %#x (same condition)", k, 0x80+(k-0x70)),
				fmt.Sprintf("short conditional branch %#x is widened to %v; the near form of the same condition is 0F %#x: the relocated prologue branches on the wrong condition", k, hexList(v), 0x80+(k-0x70)))
		case k == 0xEB:
			r.Check(len(v) == 1 && v[0] == 0xE9, "C03.R4", cons, p.Pos(pos), "JMP rel8 → JMP rel32 (E9)", fmt.Sprintf("short jump EB is widened to %v, expected E9", hexList(v)))
		default:
			r.Bad("C03.R4", cons, p.Pos(pos), fmt.Sprintf("opcode %#x is not a short branch (70..7F, EB): it has no rel32 sibling obtained by this table", k))
		}
	}
	r.Stat("widening_table_entries", len(out))
	// growth correction in the re-encoder: the widened displacement subtracts operand growth and opcode growth
	if enc := p.Fn("internal/bytecode", "EncodeAddress"); enc != nil {
		n := 0
		eachInstr(enc, func(i ssa.Instruction) {
			cl, ok := i.(*ssa.Call)
			if !ok || !strings.HasSuffix(calleeName(cl.Common()), ".PutInt32") {
				return
			}
			// only the widening arms: the value depends on len(opsNew)
			val := cl.Call.Args[len(cl.Call.Args)-1]
			inArm := false
			for _, g := range guardsAt(cl.Block()) {
				if ex, ok := g.Cond.(*ssa.Extract); ok && g.Pol && ex.Index == 1 {
					if _, ok := ex.Tuple.(*ssa.Lookup); ok {
						inArm = true
					}
				}
			}
			if !inArm {
				return
			}
			n++
			depAdd := dependsOn(val, func(v ssa.Value) bool { return v == ssa.Value(enc.Params[4]) })
			depVal := dependsOn(val, func(v ssa.Value) bool { return v == ssa.Value(enc.Params[3]) })
			depOldOps := dependsOn(val, func(v ssa.Value) bool {
				c2, ok := v.(*ssa.Call)
				return ok && isLenCall(c2) && c2.Call.Args[0] == ssa.Value(enc.Params[0])
			})
			depOldLen := dependsOn(val, func(v ssa.Value) bool { return v == ssa.Value(enc.Params[2]) })
			// shape: ((val+add) - x) - y
			okShape := false
			if b1, ok := resolveLocal(val).(*ssa.BinOp); ok && b1.Op == token.SUB {
				if b2, ok := resolveLocal(b1.X).(*ssa.BinOp); ok && b2.Op == token.SUB {
					if b3, ok := resolveLocal(b2.X).(*ssa.BinOp); ok && b3.Op == token.ADD {
						okShape = true
					}
				}
			}
			r.Check(depAdd && depVal && depOldOps && depOldLen && okShape, "C03.R4", fmt.Sprintf("widened displacement corrected by the growth (arm %d)", n), p.Pos(posOf(cl)), "disp' = disp + add − (4−oldWidth) − (len(newOpcode)−len(oldOpcode))",
				"the widened branch's displacement is not reduced by the growth of its operand and opcode: the widened jcc/jmp lands short of / past its target")
		})
		if n == 0 {
			r.Bad("C03.R4", "widened displacement corrected by the growth", p.Pos(enc.Pos()), "the re-encoder has no widening arm although the table is non-empty")
		}
	}
	return out
}

func hexList(v []int64) string {
	var s []string
	for _, x := range v {
		s = append(s, fmt.Sprintf("%#x", x))
	}
	return "[" + strings.Join(s, " ") + "]"
}
