package main

import (
	"go/token"
	"go/types"
	"strings"

	"golang.org/x/tools/go/ssa"
)

func init() { register("C08", c08) }

// boolGuardOnField: does block b execute only when load(field)==want ?
func boolGuardOnField(b *ssa.BasicBlock, fld *types.Var) (val bool, known bool) {
	for _, g := range guardsAt(b) {
		cond, pol := g.Cond, g.Pol
		for {
			if u, ok := cond.(*ssa.UnOp); ok && u.Op == token.NOT {
				cond, pol = u.X, !pol
				continue
			}
			break
		}
		if _, fv, ok := fieldRef(cond); ok && fv == fld {
			return pol, true
		}
	}
	return false, false
}

// nilGuardOnField: does block b execute only when load(field) is nil (isNil=true) / non-nil ?
func nilGuardOnField(b *ssa.BasicBlock, fld *types.Var) (isNil bool, known bool) {
	for _, g := range guardsAt(b) {
		bo, ok := g.Cond.(*ssa.BinOp)
		if !ok || (bo.Op != token.EQL && bo.Op != token.NEQ) {
			continue
		}
		var other ssa.Value
		if isNilConst(bo.Y) {
			other = bo.X
		} else if isNilConst(bo.X) {
			other = bo.Y
		} else {
			continue
		}
		if _, fv, ok := fieldRef(other); ok && fv == fld {
			return (bo.Op == token.EQL) == g.Pol, true
		}
	}
	return false, false
}

// firstWriteWins checks the capture discipline for one store to a restore slot.
// Accepted idioms: (a) guarded by !flag with flag=true stored in the same guarded region;
// (b) guarded by slot==nil where the stored value is a fresh address (never nil).
func firstWriteWins(st *ssa.Store, slot *types.Var, owner []*types.Var) (bool, string) {
	b := st.Block()
	if isNil, known := nilGuardOnField(b, slot); known && isNil {
		nonNil := true
		for _, a := range origins(st.Val) {
			if a.Kind != "alloc" {
				nonNil = false
			}
		}
		if nonNil {
			return true, "guarded by slot==nil, stored value is a fresh address"
		}
		return false, "guarded by slot==nil but the captured value itself may be nil (e.g. a nil interface/pointer variable), so the guard stays true and the slot is recaptured"
	}
	for _, flag := range owner {
		if b0, ok := flag.Type().Underlying().(*types.Basic); !ok || b0.Kind() != types.Bool {
			continue
		}
		if v, known := boolGuardOnField(b, flag); known && !v {
			// flag must be set to true in the region dominated by the same guard
			set := false
			for _, blk := range b.Parent().Blocks {
				if v2, k2 := boolGuardOnField(blk, flag); !(k2 && !v2) {
					continue
				}
				for _, i := range blk.Instrs {
					if s2, ok := i.(*ssa.Store); ok {
						if fa, ok := s2.Addr.(*ssa.FieldAddr); ok && fieldVar(fa.X.Type(), fa.Field) == flag {
							if c, ok := s2.Val.(*ssa.Const); ok && c.Value != nil && c.Value.String() == "true" {
								set = true
							}
						}
					}
				}
			}
			if set {
				return true, "guarded by !" + flag.Name() + ", which is set on the same path"
			}
			return false, "guarded by !" + flag.Name() + " but the flag is never set to true there: every Set recaptures"
		}
	}
	return false, "the store is unconditional: a second Set/Apply overwrites the remembered pre-mock value with the mocked one"
}

func structFieldsDeep(t types.Type) []*types.Var {
	var out []*types.Var
	seen := map[types.Type]bool{}
	var walk func(t types.Type)
	walk = func(t types.Type) {
		if p, ok := t.Underlying().(*types.Pointer); ok {
			t = p.Elem()
		}
		if seen[t] {
			return
		}
		seen[t] = true
		st, ok := t.Underlying().(*types.Struct)
		if !ok {
			return
		}
		for i := 0; i < st.NumFields(); i++ {
			f := st.Field(i)
			out = append(out, f)
			if f.Embedded() {
				walk(f.Type())
			} else if _, isStruct := f.Type().Underlying().(*types.Struct); isStruct {
				// a nested (by-value) struct is part of the same object: its fields are state of the mocker too
				if nt, isNamed := f.Type().(*types.Named); isNamed && nt.Obj().Pkg() != nil && strings.HasPrefix(nt.Obj().Pkg().Path(), Mod) {
					walk(f.Type())
				}
			}
		}
	}
	walk(t)
	return out
}

func c08(c *Ctx) {
	p, r := c.K1(), c.R
	// R5: Reset reaches every cached mocker's Cancel unconditionally (C02.R5): a variable mock that reports itself
	// cancelled but was set again afterwards must still be restored
	if !c.importing {
		importSibling(c, "C02", "C08.R5", func(rule string) bool { return rule == "C02.R5" })
		// R7: a variable addressed by name is found only if its symbol was entered into the table (C10.R3: every symbol read
		// is copied and stored)
		importSiblingWhere(c, "C10", "C08.R7", func(rule string) bool { return rule == "C10.R3" }, func(cons string) bool {
			return strings.Contains(cons, "symbol") || strings.Contains(cons, "slide")
		})
	}
	r.Expl = "Structural clauses behind 'variable mocks restore the pre-mock value': the slot Cancel writes back is captured first-write-wins (guard false once captured), captured from the target before the target is overwritten, never from the new value; Cancel writes back only if captured; every target write of a VarMock goes through the capturing function. Reset cancels every cached mocker unconditionally (C02.R5); the zero value written back for a variable that held the nil interface is the zero value of the variable's own type. A mocker reports itself cancelled only after Cancel (a mocker born cancelled makes the builder build a second one whose original is the mocked value). Memory-model visibility to concurrent readers and symbol address correctness (C10) are not decided."
	r.RuleText = "one obligation per (rule, store / call site / method); all name concrete SSA constructs"
	if n := checkCancelledFlagOnlyByCancel(p, r, "C08.R6", nil); n == 0 {
		r.Und("C08.R6", "cancelled flags", "", "no Canceled() method returning a flag field found")
	}
	// the zero value stands in for the captured original only where the captured original is the invalid Value (the variable
	// held the nil interface): reflect.Zero feeds the write-back only on the false side of an IsValid() test
	for _, f := range p.FuncsIn("") {
		if f.Blocks == nil || f.Name() != "Cancel" {
			continue
		}
		eachInstr(f, func(i ssa.Instruction) {
			cl, ok := i.(*ssa.Call)
			if !ok || calleeName(cl.Common()) != "reflect.Zero" {
				return
			}
			okSide, tested := false, false
			for _, g := range guardsAt(cl.Block()) {
				if vc, isCall := g.Cond.(*ssa.Call); isCall && calleeName(vc.Common()) == "(reflect.Value).IsValid" {
					tested = true
					if !g.Pol {
						okSide = true
					}
				}
			}
			if tested {
				r.Check(okSide, "C08.R3", "zero value substituted only for an invalid original in "+shortName(f), p.Pos(posOf(cl)), "reflect.Zero on the !IsValid() side",
					"the zero value is written back where the captured original is a valid value (and the invalid one is handed to Set where it is not): Cancel/Reset sets the variable to its zero value instead of the value it had before the first mock")
			}
		})
	}
	r.Floor("C08.R1", 1)
	r.Floor("C08.R2", 1)
	r.Floor("C08.R3", 1)
	vm := p.NamedType("", "VarMock")
	if vm == nil {
		r.Und("C08.R1", "VarMock", "", "exported interface VarMock not found")
		return
	}
	vmi := vm.Underlying().(*types.Interface)
	var impls []*types.Named
	for _, n := range namedTypesOf(p.Pkg("").Types) {
		if _, isI := n.Underlying().(*types.Interface); !isI && implementsIface(n, vmi) {
			impls = append(impls, n)
		}
	}
	r.Stat("varmock_impls", len(impls))
	const setName = "(reflect.Value).Set"
	doneCancel := map[*ssa.Function]bool{}
	slots := map[*types.Var]bool{}
	targets := map[*types.Var]bool{}
	var cancels []*ssa.Function
	restoreFns := map[*ssa.Function]bool{}
	for _, n := range impls {
		cf := methodOf(p, n, "Cancel")
		if cf == nil || cf.Blocks == nil || doneCancel[cf] {
			continue
		}
		doneCancel[cf] = true
		cancels = append(cancels, cf)
		// the write-back may live in a helper method Cancel calls on the same receiver
		type wb struct {
			set    ssa.Instruction
			blocks []*ssa.BasicBlock // the Set's block and the blocks of the calls leading to it
		}
		var wbs []wb
		chainOf := map[*ssa.Function][]*ssa.BasicBlock{}
		var collect func(f *ssa.Function, chain []*ssa.BasicBlock, depth int)
		collect = func(f *ssa.Function, chain []*ssa.BasicBlock, depth int) {
			restoreFns[f] = true
			chainOf[f] = chain
			for _, s := range callsTo(f, setName) {
				wbs = append(wbs, wb{s, append(append([]*ssa.BasicBlock{}, chain...), s.Block())})
			}
			if depth == 0 {
				return
			}
			eachInstr(f, func(i ssa.Instruction) {
				cl, ok := i.(*ssa.Call)
				if !ok {
					return
				}
				cal := staticCallee(cl.Common())
				if cal == nil || cal.Blocks == nil || cal.Signature.Recv() == nil || len(cl.Call.Args) == 0 || cal == f {
					return
				}
				if resolveLocal(cl.Call.Args[0]) != ssa.Value(f.Params[0]) || !types.Identical(cal.Params[0].Type(), f.Params[0].Type()) {
					return
				}
				collect(cal, append(append([]*ssa.BasicBlock{}, chain...), cl.Block()), depth-1)
			})
		}
		collect(cf, nil, 2)
		var sets []ssa.Instruction
		guardBlocks := map[ssa.Instruction][]*ssa.BasicBlock{}
		for _, w := range wbs {
			sets = append(sets, w.set)
			guardBlocks[w.set] = w.blocks
		}
		if len(sets) == 0 {
			r.Bad("C08.R2", "write-back in "+shortName(cf), p.Pos(cf.Pos()), "Cancel does not write anything back to the variable")
			continue
		}
		fields := structFieldsDeep(cf.Params[0].Type())
		for _, s := range sets {
			sfn := s.Parent()
			args := callCommon(s).Args
			var slot, tgt *types.Var
			for _, f := range fields {
				ff := f
				isF := func(v ssa.Value) bool { _, fv, ok := fieldRef(v); return ok && fv == ff }
				if dependsOn(args[1], isF) {
					slot = f
				}
				if dependsOn(args[0], isF) {
					tgt = f
				}
			}
			if slot == nil || tgt == nil {
				r.Bad("C08.R2", "write-back operands in "+shortName(sfn), p.Pos(posOf(s)), "Cancel's write-back does not take its value from a remembered field of the mocker / does not address the mocked variable")
				continue
			}
			slots[slot], targets[tgt] = true, true
			r.OK("C08.R2", "write-back operands in "+shortName(sfn), p.Pos(posOf(s)), "writes "+slot.Name()+" back to "+tgt.Name())
			// where the written value can be a substitute zero value (the variable held the nil interface), it is the zero
			// value of the type of the very thing that is set
			kz := NewKeyer(sfn)
			for _, a := range origins(args[1]) {
				zc, ok := a.V.(*ssa.Call)
				if !ok || calleeName(zc.Common()) != "reflect.Zero" {
					continue
				}
				okT := false
				if tc, ok := resolveLocal(zc.Call.Args[0]).(*ssa.Call); ok && calleeName(tc.Common()) == "(reflect.Value).Type" {
					okT = sameAccessPath(kz, tc.Call.Args[0], args[0], 0)
				}
				r.Check(okT, "C08.R2", "substitute zero value in "+shortName(sfn)+" has the variable's type", p.Pos(posOf(zc)), "reflect.Zero(X.Type()) for the X that is set",
					"the zero value written back for a variable that held nil is not of the type of the variable being set (e.g. of the pointer to it): Cancel/Reset panics or leaves a non-nil value in a variable that was nil before the mock")
			}
			// restore only if captured: guarded by a bool flag (true) or slot != nil
			guarded := false
			for _, gb := range guardBlocks[s] {
				for _, f := range fields {
					if v, k := boolGuardOnField(gb, f); k && v {
						// the flag must be one that the capture sets (checked in R1 via same field)
						guarded = true
					}
				}
				if isNil, k := nilGuardOnField(gb, slot); k && !isNil {
					guarded = true
				}
			}
			r.Check(guarded, "C08.R2", "write-back only if captured in "+shortName(sfn), p.Pos(posOf(s)), "write-back guarded by the captured predicate",
				"Cancel writes the remembered slot back unconditionally: cancelling a variable mock that was never Set writes an invalid/zero value (reflect panics) instead of leaving the variable untouched")
		}
		// … and always if captured: a way out of Cancel that has not passed the write-back is taken only where nothing was
		// captured (an early return on some other flag — "already cancelled" — skips the restore of a mock that was set again)
		{
			isWB := func(j ssa.Instruction) bool {
				for _, s := range sets {
					if s == j {
						return true
					}
				}
				if ci, ok := j.(ssa.CallInstruction); ok {
					if cal := staticCallee(ci.Common()); cal != nil && cal != cf {
						if _, isHelper := chainOf[cal]; isHelper {
							return true
						}
					}
				}
				return false
			}
			okAlways := true
			at := cf.Pos()
			// which boolean fields does the write-back sit under? (the captured predicate)
			capFlag := map[*types.Var]bool{}
			for _, s := range sets {
				for _, gb := range guardBlocks[s] {
					for _, f := range fields {
						if v, k := boolGuardOnField(gb, f); k && v {
							capFlag[f] = true
						}
					}
				}
			}
			seenB := map[*ssa.BasicBlock]bool{}
			var walk func(b *ssa.BasicBlock)
			walk = func(b *ssa.BasicBlock) {
				if seenB[b] || !okAlways {
					return
				}
				seenB[b] = true
				for _, ins := range b.Instrs {
					if isWB(ins) {
						return
					}
					if ret, ok := ins.(*ssa.Return); ok {
						okAlways = false
						at = posOf(ret)
						return
					}
				}
				succs := b.Succs
				if iff, ok := b.Instrs[len(b.Instrs)-1].(*ssa.If); ok {
					c := iff.Cond
					neg := false
					if u, isU := c.(*ssa.UnOp); isU && u.Op == token.NOT {
						c, neg = u.X, true
					}
					if _, fv, isF := fieldRef(c); isF && fv != nil && capFlag[fv] {
						// something was captured: the flag is true
						if neg {
							succs = []*ssa.BasicBlock{b.Succs[1]}
						} else {
							succs = []*ssa.BasicBlock{b.Succs[0]}
						}
					}
					if bo, isB := c.(*ssa.BinOp); isB && (bo.Op == token.EQL || bo.Op == token.NEQ) {
						var other ssa.Value
						if isNilConst(bo.Y) {
							other = bo.X
						} else if isNilConst(bo.X) {
							other = bo.Y
						}
						if other != nil {
							if _, fv, isF := fieldRef(other); isF && fv != nil && slots[fv] {
								nonNilSide := b.Succs[0]
								if bo.Op == token.EQL {
									nonNilSide = b.Succs[1]
								}
								succs = []*ssa.BasicBlock{nonNilSide}
							}
						}
					}
				}
				for _, s2 := range succs {
					walk(s2)
				}
			}
			walk(cf.Blocks[0])
			r.Check(okAlways, "C08.R2", "write-back on every way out of "+shortName(cf)+" where a value was captured", p.Pos(at), "a return that skipped the write-back is under 'nothing captured'",
				"Cancel can return without restoring although a value was captured (an early return on another flag): a handle that is Set again after its first Cancel/Reset keeps the mocked value at the next Cancel/Reset")
		}
		// nothing touches the mocked variable's handle in Cancel unless a value was captured: for a mock that was never
		// Set/Applied the handle may still be the zero reflect.Value (unexported-variable mocks resolve it lazily)
		for rf, chain := range chainOf {
			eachInstr(rf, func(i ssa.Instruction) {
				ci, ok := i.(*ssa.Call)
				if !ok || !strings.HasPrefix(calleeName(ci.Common()), "(reflect.Value).") || len(ci.Call.Args) == 0 {
					return
				}
				_, fv, okF := fieldRef(resolveLocal(ci.Call.Args[0]))
				if !okF || fv == nil || !targets[fv] {
					return
				}
				guarded := false
				for _, gb := range append(append([]*ssa.BasicBlock{}, chain...), i.Block()) {
					for _, f := range fields {
						if v, k := boolGuardOnField(gb, f); k && v {
							guarded = true
						}
					}
					for sl := range slots {
						if isNil, k := nilGuardOnField(gb, sl); k && !isNil {
							guarded = true
						}
					}
				}
				r.Check(guarded, "C08.R2", "variable handle used only if captured in "+shortName(rf)+" ("+calleeName(ci.Common())+")", p.Pos(posOf(i)), "reflect operation on the handle guarded by the captured predicate",
					"Cancel operates on the variable's reflect handle before testing whether anything was captured: cancelling (or resetting a builder that holds) a variable mock that was never set panics on the zero handle, and the remaining mockers of the builder are not restored")
			})
		}
	}
	// R1: every store to a restore slot is first-write-wins, reads the target, precedes the overwrite
	for slot := range slots {
		sl := slot
		sts := storesToField(p.FuncsIn(""), func(fv *types.Var, _ ssa.Value) bool { return fv == sl })
		n := 0
		for _, fs := range sts {
			if _, inCtor := fs.Addr.X.(*ssa.Alloc); inCtor {
				continue
			}
			n++
			fields := structFieldsDeep(fs.Fn.Params[0].Type())
			ok, why := firstWriteWins(fs.Store, slot, fields)
			cons := "capture of " + slot.Name() + " in " + shortName(fs.Fn)
			r.Check(ok, "C08.R1", cons, p.Pos(posOf(fs.Store)), why, why)
			// captured value comes from the target, not from the new value
			fromTarget := dependsOn(fs.Store.Val, func(v ssa.Value) bool { _, fv, ok := fieldRef(v); return ok && targets[fv] })
			fromParam := dependsOn(fs.Store.Val, func(v ssa.Value) bool {
				pr, ok := v.(*ssa.Parameter)
				return ok && pr != fs.Fn.Params[0]
			})
			r.Check(fromTarget && !fromParam, "C08.R1", cons+" reads the variable", p.Pos(posOf(fs.Store)), "captured value is read from the target",
				"the remembered value is not read from the variable itself (it depends on the new value or on something else)")
			// capture happens before the target is overwritten in the same function
			for _, s := range callsTo(fs.Fn, setName) {
				before := !reachableAfter(s, fs.Store) || fs.Store.Block() == s.Block() && instrIndex(fs.Store) < instrIndex(s)
				// the value read must also be loaded before the Set
				r.Check(before && !reachableAfter(s, fs.Store), "C08.R1", cons+" precedes overwrite", p.Pos(posOf(s)), "capture precedes the overwrite",
					"the variable is overwritten before its value is remembered: the mocked value is captured as 'original'")
			}
		}
		if n == 0 {
			r.Bad("C08.R1", "capture of "+slot.Name(), p.Pos(slot.Pos()), "the slot Cancel restores from is never captured")
		}
	}
	// R4 (shared with C12.R1/C02.R7): the builder files a variable mocker under the key it consults and never forgets it,
	// so that Reset reaches every mocker whose handle the caller may still use
	checkCacheKeys(p, r, "C08.R4", "C08.R4")
	// R3: every target write in VarMock methods other than Cancel is in a function that captures first
	capFns := map[*ssa.Function]bool{}
	for slot := range slots {
		sl := slot
		for _, fs := range storesToField(p.FuncsIn(""), func(fv *types.Var, _ ssa.Value) bool { return fv == sl }) {
			capFns[fs.Fn] = true
		}
	}
	isCancel := func(f *ssa.Function) bool {
		for _, c := range cancels {
			if c == f {
				return true
			}
		}
		if restoreFns[f] {
			// a restore helper: only if every caller is itself part of the Cancel chain
			for _, cs := range p.callersOfAny(f) {
				if !restoreFns[cs.Caller] {
					return false
				}
			}
			return true
		}
		return false
	}
	for _, fn := range p.FuncsIn("") {
		if fn.Signature.Recv() == nil || isCancel(fn) {
			continue
		}
		rt := fn.Signature.Recv().Type()
		if pt, ok := rt.Underlying().(*types.Pointer); ok {
			rt = pt.Elem()
		}
		nt, ok := rt.(*types.Named)
		if !ok {
			continue
		}
		isImpl := false
		for _, n := range impls {
			if n == nt {
				isImpl = true
			}
		}
		if !isImpl {
			continue
		}
		for _, s := range callsTo(fn, setName) {
			tgt := dependsOn(callCommon(s).Args[0], func(v ssa.Value) bool { _, fv, ok := fieldRef(v); return ok && targets[fv] })
			if !tgt {
				continue
			}
			r.Check(capFns[fn], "C08.R3", "variable write in "+shortName(fn), p.Pos(posOf(s)), "write goes through the capturing function",
				"the variable is written by a method that does not capture its previous value: Cancel/Reset cannot restore it")
		}
		// exported Set/Apply must reach a capturing function
		if fn.Name() == "Set" || fn.Name() == "Apply" {
			reach := p.staticReach(fn)
			okR := false
			for cf := range capFns {
				if reach[cf] {
					okR = true
				}
			}
			r.Check(okR, "C08.R3", shortName(fn)+" reaches capture", p.Pos(fn.Pos()), "routes through the capturing function", "Set/Apply never reaches the function that remembers the pre-mock value")
			// a mocker that knows its variable only by address (a field of type unsafe.Pointer) builds the handle it writes
			// through from that address — reflect.NewAt(type, address) stored into the handle field — before it captures
			if rt, ok := fn.Signature.Recv().Type().(*types.Pointer); ok {
				if st, ok := rt.Elem().Underlying().(*types.Struct); ok {
					var addrFld *types.Var
					for k := 0; k < st.NumFields(); k++ {
						if st.Field(k).Type().String() == "unsafe.Pointer" {
							addrFld = st.Field(k)
						}
					}
					if addrFld != nil {
						isHandle := func(j ssa.Instruction) bool {
							s2, ok := j.(*ssa.Store)
							if !ok || !strings.HasSuffix(s2.Val.Type().String(), "reflect.Value") {
								return false
							}
							if _, isF := s2.Addr.(*ssa.FieldAddr); !isF {
								return false
							}
							for _, a := range origins(s2.Val) {
								if c2, ok := a.V.(*ssa.Call); ok && calleeName(c2.Common()) == "reflect.NewAt" {
									if _, fv, ok := fieldRef(resolveLocal(c2.Call.Args[1])); ok && fv == addrFld {
										return true
									}
								}
							}
							return false
						}
						okH := true
						eachInstr(fn, func(j ssa.Instruction) {
							if ci, ok := j.(ssa.CallInstruction); ok {
								if cal := staticCallee(ci.Common()); cal != nil && (capFns[cal] || p.staticReach(cal)[firstKey(capFns)]) && cal != fn {
									if !passedBefore(fn, j, isHandle, nil) {
										okH = false
									}
								}
							}
						})
						r.Check(okH, "C08.R3", shortName(fn)+" builds the handle from the variable's address", p.Pos(fn.Pos()), "handle = reflect.NewAt(type, address) before the capture",
							"the by-name variable mocker captures and writes through a handle that was never built from the looked-up address: Set panics (zero Value) or writes elsewhere")
					}
				}
			}
		}
	}
}

// sameAccessPath: a and b denote the same thing by construction — the same SSA value, loads with the same structural key, or
// the same chain of reflect.Value accessors (Elem, Field, Index with equal constant) applied to the same thing.
func sameAccessPath(k *Keyer, a, b ssa.Value, depth int) bool {
	a, b = resolveLocal(a), resolveLocal(b)
	if a == b {
		return true
	}
	if depth > 6 {
		return false
	}
	ca, ok1 := a.(*ssa.Call)
	cb, ok2 := b.(*ssa.Call)
	if ok1 && ok2 {
		na, nb := calleeName(ca.Common()), calleeName(cb.Common())
		if na != nb || len(ca.Call.Args) != len(cb.Call.Args) {
			return false
		}
		switch na {
		case "(reflect.Value).Elem", "(reflect.Value).Field", "(reflect.Value).Index", "reflect.Indirect", "reflect.ValueOf":
		default:
			return false
		}
		for i := range ca.Call.Args {
			if !sameAccessPath(k, ca.Call.Args[i], cb.Call.Args[i], depth+1) {
				return false
			}
		}
		return true
	}
	if ok1 != ok2 {
		return false
	}
	if x, ok := a.(*ssa.Const); ok {
		y, ok2 := b.(*ssa.Const)
		return ok2 && x.Value != nil && y.Value != nil && x.Value.ExactString() == y.Value.ExactString()
	}
	ka, kb := k.Key(a), k.Key(b)
	return ka == kb && !strings.HasPrefix(ka, "#") && !strings.HasPrefix(ka, "$")
}

func firstKey(m map[*ssa.Function]bool) *ssa.Function {
	var best *ssa.Function
	for f := range m {
		if best == nil || f.String() < best.String() {
			best = f
		}
	}
	return best
}
