package main

import (
	"fmt"
	"go/token"
	"go/types"
	"os"
	"sort"
	"strings"

	"golang.org/x/tools/go/ssa"
)

func init() { register("C11", c11) }

// lockKey names a lock: "pkg.global" or "pkg.global(RW)".
func lockOfCall(i ssa.Instruction) (key string, acquire bool, write bool, ok bool) {
	c := callCommon(i)
	if c == nil {
		return
	}
	cn := calleeName(c)
	var recv ssa.Value
	switch cn {
	case "(*sync.Mutex).Lock", "(*sync.RWMutex).Lock":
		acquire, write = true, true
	case "(*sync.RWMutex).RLock":
		acquire, write = true, false
	case "(*sync.Mutex).Unlock", "(*sync.RWMutex).Unlock", "(*sync.RWMutex).RUnlock":
		acquire = false
	default:
		return
	}
	recv = c.Args[0]
	if g, isG := recv.(*ssa.Global); isG {
		return g.Pkg.Pkg.Path() + "." + g.Name(), acquire, write, true
	}
	if fa, isF := recv.(*ssa.FieldAddr); isF {
		if g, isG := fa.X.(*ssa.Global); isG {
			return g.Pkg.Pkg.Path() + "." + g.Name(), acquire, write, true
		}
	}
	return
}

// lockWrappers: functions whose every path returns with a global lock acquired (lock()) or released (unlock()).
type lockSummary struct {
	acq map[string]bool // locks definitely acquired on return (not released by a defer)
	rel map[string]bool
}

func (p *Prog) lockSummaries() map[*ssa.Function]lockSummary {
	out := map[*ssa.Function]lockSummary{}
	for _, f := range p.Funcs {
		if len(f.Blocks) != 1 {
			continue
		}
		s := lockSummary{acq: map[string]bool{}, rel: map[string]bool{}}
		n := 0
		simple := true
		for _, i := range f.Blocks[0].Instrs {
			if _, isD := i.(*ssa.Defer); isD {
				simple = false
			}
			if k, a, _, ok := lockOfCall(i); ok {
				if _, isCall := i.(*ssa.Call); isCall {
					if a {
						s.acq[k] = true
					} else {
						s.rel[k] = true
					}
					n++
				}
			}
		}
		if simple && n == 1 {
			out[f] = s
		}
	}
	return out
}

// heldAt computes, for each instruction of fn, the set of locks definitely held (intra-procedural; defers do not release).
func (p *Prog) heldAt(fn *ssa.Function, sums map[*ssa.Function]lockSummary) map[ssa.Instruction]map[string]bool {
	in := map[*ssa.BasicBlock]map[string]bool{}
	outm := map[*ssa.BasicBlock]map[string]bool{}
	all := map[string]bool{}
	eachInstr(fn, func(i ssa.Instruction) {
		if k, _, _, ok := lockOfCall(i); ok {
			all[k] = true
		}
		if ci, ok := i.(*ssa.Call); ok {
			if s, ok := sums[staticCallee(ci.Common())]; ok {
				for k := range s.acq {
					all[k] = true
				}
			}
		}
	})
	clone := func(m map[string]bool) map[string]bool {
		n := map[string]bool{}
		for k, v := range m {
			if v {
				n[k] = true
			}
		}
		return n
	}
	for _, b := range fn.Blocks {
		in[b], outm[b] = clone(all), clone(all)
	}
	res := map[ssa.Instruction]map[string]bool{}
	transfer := func(b *ssa.BasicBlock, cur map[string]bool, record bool) map[string]bool {
		for _, i := range b.Instrs {
			if record {
				res[i] = clone(cur)
			}
			if _, isCall := i.(*ssa.Call); isCall {
				if k, a, _, ok := lockOfCall(i); ok {
					if a {
						cur[k] = true
					} else {
						delete(cur, k)
					}
				}
				if s, ok := sums[staticCallee(callCommon(i))]; ok {
					for k := range s.acq {
						cur[k] = true
					}
					for k := range s.rel {
						delete(cur, k)
					}
				}
			}
		}
		return cur
	}
	for changed := true; changed; {
		changed = false
		for _, b := range fn.Blocks {
			var cur map[string]bool
			if b == fn.Blocks[0] {
				cur = map[string]bool{}
			} else if len(b.Preds) == 0 {
				cur = clone(all)
			} else {
				cur = clone(outm[b.Preds[0]])
				for _, pr := range b.Preds[1:] {
					for k := range cur {
						if !outm[pr][k] {
							delete(cur, k)
						}
					}
				}
			}
			o := transfer(b, clone(cur), false)
			if !sameSet(cur, in[b]) || !sameSet(o, outm[b]) {
				in[b], outm[b] = cur, o
				changed = true
			}
		}
	}
	for _, b := range fn.Blocks {
		transfer(b, clone(in[b]), true)
	}
	return res
}

func sameSet(a, b map[string]bool) bool {
	if len(a) != len(b) {
		return false
	}
	for k := range a {
		if !b[k] {
			return false
		}
	}
	return true
}

// callersHold: does every module call path into fn hold lock at the call site (recursively, bounded)?
func (p *Prog) callersHold(fn *ssa.Function, lock string, held map[*ssa.Function]map[ssa.Instruction]map[string]bool, sums map[*ssa.Function]lockSummary, seen map[*ssa.Function]bool, api map[*ssa.Function]bool) (bool, string) {
	if seen[fn] {
		return true, ""
	}
	seen[fn] = true
	edges := p.modEdges()
	var callers []*ssa.Function
	for a, bs := range edges {
		for _, b := range bs {
			if b == fn {
				callers = append(callers, a)
			}
		}
	}
	if api[fn] {
		return false, "entered from the public API at " + shortName(fn)
	}
	if len(callers) == 0 {
		// package init and unreferenced functions run single-threaded / never
		return true, ""
	}
	sort.Slice(callers, func(i, j int) bool { return callers[i].String() < callers[j].String() })
	done := map[*ssa.Function]bool{}
	for _, c := range callers {
		if done[c] {
			continue
		}
		done[c] = true
		if isPkgInit(c) {
			continue // package initialisation is single threaded
		}
		h := held[c]
		if h == nil {
			h = p.heldAt(c, sums)
			held[c] = h
		}
		okAll := true
		eachInstr(c, func(i ssa.Instruction) {
			ci, ok := i.(ssa.CallInstruction)
			if !ok {
				if mc, ok := i.(*ssa.MakeClosure); ok && mc.Fn == ssa.Value(fn) {
					if !h[i][lock] {
						okAll = false
					}
				}
				return
			}
			for _, cal := range p.modCallees(ci) {
				if cal == fn && !h[i][lock] {
					okAll = false
				}
			}
		})
		if !okAll {
			ok, why := p.callersHold(c, lock, held, sums, seen, api)
			if !ok {
				return false, why + " → " + shortName(c)
			}
		}
	}
	return true, ""
}

// globalAccess is one use of a package-level variable.
type globalAccess struct {
	Fn    *ssa.Function
	Instr ssa.Instruction
	Write bool
	How   string
}

func accessesOf(p *Prog, g *ssa.Global) []globalAccess {
	var out []globalAccess
	for _, f := range p.Funcs {
		eachInstr(f, func(i ssa.Instruction) {
			for _, op := range i.Operands(nil) {
				if *op != ssa.Value(g) {
					continue
				}
				switch x := i.(type) {
				case *ssa.Store:
					if x.Addr == ssa.Value(g) {
						out = append(out, globalAccess{f, i, true, "store"})
					}
				case *ssa.UnOp:
					if x.Op == token.MUL {
						// load of the variable; classify uses of the loaded value (map update / field store through pointer)
						w := false
						how := "load"
						for _, ref := range *x.Referrers() {
							switch u := ref.(type) {
							case *ssa.MapUpdate:
								if u.Map == ssa.Value(x) {
									w, how = true, "map update"
								}
							case *ssa.Call:
								if bi, ok := u.Call.Value.(*ssa.Builtin); ok && bi.Name() == "delete" {
									w, how = true, "map delete"
								}
							case *ssa.FieldAddr:
								for _, r2 := range *u.Referrers() {
									if st, ok := r2.(*ssa.Store); ok && st.Addr == ssa.Value(u) {
										w, how = true, "field store"
									}
									if ci, ok := r2.(ssa.CallInstruction); ok && strings.HasPrefix(calleeName(ci.Common()), "sync/atomic.") {
										how = "atomic"
									}
								}
							case *ssa.IndexAddr:
								for _, r2 := range *u.Referrers() {
									if st, ok := r2.(*ssa.Store); ok && st.Addr == ssa.Value(u) {
										w, how = true, "element store"
									}
								}
							}
						}
						out = append(out, globalAccess{f, i, w, how})
					}
				case ssa.CallInstruction:
					cn := calleeName(x.Common())
					switch {
					case strings.HasPrefix(cn, "sync/atomic."):
						out = append(out, globalAccess{f, i, !strings.Contains(cn, "Load"), "atomic"})
					case strings.HasPrefix(cn, "(*sync."):
						// lock / once operations on the variable itself
						out = append(out, globalAccess{f, i, false, "sync"})
					default:
						out = append(out, globalAccess{f, i, true, "address passed to " + cn})
					}
				case *ssa.FieldAddr:
					w, how := false, "field load"
					for _, r2 := range *x.Referrers() {
						if st, ok := r2.(*ssa.Store); ok && st.Addr == ssa.Value(x) {
							w, how = true, "field store"
						}
						if ci, ok := r2.(ssa.CallInstruction); ok && strings.HasPrefix(calleeName(ci.Common()), "(*sync.") {
							how = "sync"
						}
					}
					out = append(out, globalAccess{f, i, w, how})
				case *ssa.IndexAddr:
					w := false
					for _, r2 := range *x.Referrers() {
						if st, ok := r2.(*ssa.Store); ok && st.Addr == ssa.Value(x) {
							w = true
						}
					}
					out = append(out, globalAccess{f, i, w, "element"})
				default:
					out = append(out, globalAccess{f, i, false, "other"})
				}
			}
		})
	}
	return out
}

// c11Config: package-level variables that are deliberately unsynchronised configuration, one symbol each with its reason.
var c11Config = map[string]string{
	"internal/logger.LogLevel":              "log level switch: set by the user before mocking (OpenTrace/CloseTrace), read as a plain int; C19 proves it influences logging only",
	"internal/logger.ConsoleLevel":          "debug switch: as LogLevel",
	"internal/logger.Logger":                "log sink switch: as LogLevel",
	"internal/logger.EnableLogTrack":        "log decoration switch set through SetLogTrack before use",
	"internal/logger.trackGetter":           "log decoration callback set through SetLogTrack before use",
	"internal/logger.ShowError2Console":     "log switch",
	"internal/unexports2.symTable":          "written only while symTable==nil && symTableLoadError==nil; every API path reaches it first through sync.Once (FindFuncByName/FindVarByName), which publishes it before any concurrent reader",
	"internal/unexports2.symTableLoadError": "as symTable",
	"internal/arch/x86asm.trace":            "decoder debug switch, never set by goom",
}

func c11(c *Ctx) {
	p, r := c.K1(), c.R
	// R9: concurrent interface mocks never receive the same stub space — the reserve hands out regions computed from the
	// atomic reservation (C20.R1)
	if !c.importing {
		importSibling(c, "C20", "C11.R9", func(rule string) bool { return rule == "C20.R1" })
		// R10: at quiescence everything a builder mocked is restored: Reset cancels every cached mocker unconditionally (C02.R5)
		importSibling(c, "C02", "C11.R10", func(rule string) bool { return rule == "C02.R5" })
	}
	// ---- R5: what two builders hand to the patch layer is private to each of them: the entry-jump emitters return fresh
	// bytes, never a view of package-level storage (shared with C01.R1 / C15.E)
	for _, em := range emitterFuncs(p) {
		g := returnsSharedStorage(em)
		r.Check(g == "", "C11.R5", "emitter "+shortName(em)+" returns private bytes", p.Pos(em.Pos()), "fresh slice per call",
			"the emitter returns a view of package-level storage ("+g+"): two builders that patch different functions share one buffer, so the jump one of them applies is the other's")
	}
	// ---- R6: calls of an already mocked function may run concurrently: the position a call serves in a result sequence is
	// the one it obtained atomically and is proven in range (the rules of C05.R1–R3 on the same program)
	{
		sub := NewReport("C05", c.Tier)
		sub.SetConfig("linux/amd64")
		sc := &Ctx{Repo: c.Repo, Verif: c.Verif, Tier: c.Tier, R: sub, k1: c.k1, k2: c.k2, k2err: c.k2err, isNorm: c.isNorm, importing: true}
		c05(sc)
		r.verifDir = c.Verif
		r.Import(sub, "C11.R6", func(rule string) bool { return rule == "C05.R1" || rule == "C05.R2" || rule == "C05.R3" })
	}
	defer func() {
		if c.Tier == "thorough" {
			if k2, err := c.K2(); err == nil {
				r.SetConfig("linux/arm64")
				c11Arch(c, k2)
				r.SetConfig("linux/amd64")
			} else {
				r.Und("C11.R1", "arm64 configuration", "", err.Error())
			}
		}
	}()
	r.Expl = "Structural clauses behind 'independent builders and concurrent callers are race-free': (R1) inventory of every package-level variable of the module that is written after package initialisation by code reachable from the public API — each must be accessed only with one named lock held (at the access or at every module call site leading to it), only through sync/atomic, only inside a sync.Once initialiser, or be a listed configuration switch with its reason; (R2) every raw text access (copy into / read from the raw view, mprotect) happens with the memory RW-lock held in the right mode; (R3) every entry-jump write is executed with the patch lock held, except never-applied guards on the two error paths; (R4) the writable window keeps PROT_EXEC (shared with C14). Races on user objects shared by misuse and atomicity of a 13-byte write against executing threads are not decided. (R8) a package-level lock is released only where it is definitely held (at the release or by every caller), on both architectures."
	r.RuleText = "one obligation per (rule, global variable / access site / write site)"
	r.Floor("C11.R1", 4)
	r.Floor("C11.R2", 3)
	r.Floor("C11.R3", 3)
	r.Floor("C11.R8", 6)
	c11Unlocks(c, p)
	if k2, err := c.K2(); err == nil {
		r.SetConfig("linux/arm64")
		c11Unlocks(c, k2)
		r.SetConfig("linux/amd64")
	}
	c11Arch(c, p)
}

// c11Unlocks: C11.R8 — a package-level lock is released (directly, by a deferred call or through an unlock wrapper) only
// where it is definitely held: at the release itself, or at every call site of the function that releases it.
func c11Unlocks(c *Ctx, p *Prog) {
	r := c.R
	sums := p.lockSummaries()
	held := map[*ssa.Function]map[ssa.Instruction]map[string]bool{}
	for _, f := range p.Funcs {
		if !strings.HasPrefix(pkgPathOf(f), Mod) || f.Blocks == nil {
			continue
		}
		if _, isWrapper := sums[f]; isWrapper {
			continue
		}
		var h map[ssa.Instruction]map[string]bool
		eachInstr(f, func(i ssa.Instruction) {
			rel := map[string]bool{}
			if k, acq, _, ok := lockOfCall(i); ok && !acq {
				rel[k] = true
			}
			if cc := callCommon(i); cc != nil {
				if s, ok := sums[staticCallee(cc)]; ok {
					for k := range s.rel {
						rel[k] = true
					}
				}
			}
			if len(rel) == 0 {
				return
			}
			if h == nil {
				h = p.heldAt(f, sums)
				held[f] = h
			}
			for k := range rel {
				ok := h[i][k]
				why := ""
				if !ok {
					// released on behalf of callers: an internal helper every caller of which holds the lock
					nCallers := 0
					for _, bs := range p.modEdges() {
						for _, b := range bs {
							if b == f {
								nCallers++
							}
						}
					}
					if nCallers > 0 && (f.Object() == nil || !f.Object().Exported()) {
						ok, why = p.callersHold(f, k, held, sums, map[*ssa.Function]bool{}, nil)
					} else {
						why = "not acquired in " + shortName(f)
					}
				}
				r.Check(ok, "C11.R8", "release of "+shortLock(k)+" in "+shortName(f)+" happens with the lock held", p.Pos(posOf(i)), "held at the release (or by every caller)",
					"a lock is released on a path where it was not acquired ("+why+"): the write to the text segment runs unprotected and the unlock of an unlocked mutex is a fatal error")
			}
		})
	}
}

func c11Arch(c *Ctx, p *Prog) {
	r := c.R
	sums := p.lockSummaries()
	held := map[*ssa.Function]map[ssa.Instruction]map[string]bool{}
	heldIn := func(f *ssa.Function) map[ssa.Instruction]map[string]bool {
		if held[f] == nil {
			held[f] = p.heldAt(f, sums)
		}
		return held[f]
	}
	// ---- R7: the code that runs inside a call of an already mocked function (the MakeFunc callback, condition selection,
	// Match/Eval/Result and what they call in the root and arg packages) is executed by any number of goroutines at once:
	// it writes memory that other callers can see only through sync/atomic or under a lock
	{
		var roots []*ssa.Function
		for _, f := range p.FuncsIn("") {
			for _, cs := range callsTo(f, "reflect.MakeFunc") {
				switch x := callCommon(cs).Args[1].(type) {
				case *ssa.MakeClosure:
					if fn, ok := x.Fn.(*ssa.Function); ok {
						roots = append(roots, fn)
						if fn.Synthetic != "" {
							// bound-method wrapper: the method it forwards to
							eachInstr(fn, func(j ssa.Instruction) {
								if ci, ok := j.(ssa.CallInstruction); ok {
									if cal := staticCallee(ci.Common()); cal != nil && cal.Blocks != nil {
										roots = append(roots, cal)
									}
								}
							})
						}
					}
				case *ssa.Function:
					roots = append(roots, x)
				}
			}
		}
		reach := p.modReach(roots...)
		var fns []*ssa.Function
		for f := range reach {
			if rp := relPkg(f); (rp == "" || rp == "arg") && f.Blocks != nil {
				fns = append(fns, f)
			}
		}
		sort.Slice(fns, func(i, j int) bool { return fns[i].String() < fns[j].String() })
		if os.Getenv("GOOMVET_DEBUG") != "" {
			for _, f := range fns {
				fmt.Println("  call-path fn", shortName(f))
			}
		}
		nW := 0
		for _, f := range fns {
			held := heldIn(f)
			eachInstr(f, func(i ssa.Instruction) {
				why := ""
				switch x := i.(type) {
				case *ssa.Store:
					if !isLocalAddr(x.Addr) && !isFrameCapture(f, x.Addr) {
						why = "store to shared memory"
					}
				case *ssa.MapUpdate:
					if _, fresh := x.Map.(*ssa.MakeMap); !fresh {
						why = "map update"
					}
				case *ssa.Call:
					if bi, ok := x.Call.Value.(*ssa.Builtin); ok && bi.Name() == "append" {
						// append writes in place when the destination has spare capacity: a destination that comes from a field
						// or a global is shared between the callers
						dst := x.Call.Args[0]
						for {
							if sl, isSl := resolveLocal(dst).(*ssa.Slice); isSl {
								dst = sl.X
								continue
							}
							break
						}
						for _, a := range origins(dst) {
							if a.Kind == "field" || a.Kind == "global" {
								why = "append into a buffer kept in " + a.Name
							}
						}
					}
				}
				if why == "" {
					return
				}
				if len(held[i]) > 0 {
					return
				}
				// mocker configuration methods are not on the call path even if the call graph reaches them through interfaces
				if f.Object() != nil && f.Object().Exported() && f.Signature.Recv() != nil && relPkg(f) == "" && !strings.HasPrefix(f.Name(), "Match") && f.Name() != "Result" && f.Name() != "Eval" {
					return
				}
				nW++
				r.Bad("C11.R7", "shared write on the call path in "+shortName(f), p.Pos(posOf(i)), why+" in code that concurrent callers of a mocked function execute, neither through sync/atomic nor under a lock: callers overwrite each other's state (a reused argument buffer, a remembered last result) and are answered with another caller's data")
			})
		}
		if len(roots) == 0 {
			r.Und("C11.R7", "stub callbacks", "", "no reflect.MakeFunc callback found in the root package")
		} else if nW == 0 {
			r.OK("C11.R7", "call path of a mocked function writes shared memory only atomically", "", fmt.Sprintf("%d functions reachable from the stub callbacks", len(fns)))
		}
	}
	// public API = exported functions/methods of the root package
	api := map[*ssa.Function]bool{}
	for _, f := range p.FuncsIn("") {
		if f.Object() != nil && f.Object().Exported() && f.Parent() == nil {
			api[f] = true
		}
	}
	var roots []*ssa.Function
	for f := range api {
		roots = append(roots, f)
	}
	reach := p.modReach(roots...)
	// once initialisers: functions passed to (*sync.Once).Do
	onceInit := map[*ssa.Function]bool{}
	for _, f := range p.Funcs {
		for _, cs := range callsTo(f, "(*sync.Once).Do") {
			if fn, ok := callCommon(cs).Args[1].(*ssa.Function); ok {
				for g := range p.modReach(fn) {
					onceInit[g] = true
				}
			}
		}
	}
	// a function counts as "runs only inside the initialiser" only if nothing outside the initialiser's reach calls it
	// (a function whose value is merely mentioned by the initialiser — reflect.ValueOf(f).Pointer() — is reachable for the
	// conservative graph, but its own callers run it without the Once)
	calledOutsideOnce := func(fn *ssa.Function) bool {
		for _, cs := range p.callersOf(fn) {
			if !onceInit[cs.Caller] {
				return true
			}
		}
		return false
	}
	nGlob := 0
	for _, pk := range p.Pkgs {
		sp := p.SPkg[pk.PkgPath]
		if sp == nil {
			continue
		}
		var names []string
		for n, m := range sp.Members {
			if _, ok := m.(*ssa.Global); ok {
				names = append(names, n)
			}
		}
		sort.Strings(names)
		for _, n := range names {
			g := sp.Members[n].(*ssa.Global)
			if strings.HasPrefix(n, "init$") {
				continue
			}
			rel := strings.TrimPrefix(strings.TrimPrefix(pk.PkgPath, Mod), "/")
			key := rel + "." + n
			if rel == "" {
				key = "mocker." + n
			}
			if rel == "test" {
				continue
			}
			acc := accessesOf(p, g)
			// is it a lock/once itself?
			if strings.HasPrefix(g.Type().String(), "*sync.") {
				continue
			}
			// a slice/map/pointer variable that is never assigned stays nil: writes through it are unreachable
			assigned := false
			for _, a := range acc {
				if a.How == "store" {
					assigned = true
				}
			}
			switch g.Type().(*types.Pointer).Elem().Underlying().(type) {
			case *types.Slice, *types.Map, *types.Pointer:
				if !assigned {
					continue
				}
			}
			written := false
			for _, a := range acc {
				isInit := isPkgInit(a.Fn)
				if a.Write && !isInit && reach[a.Fn] {
					written = true
				}
			}
			if os.Getenv("GOOMVET_DEBUG") != "" && strings.Contains(key, "symTable") {
				for _, a := range acc {
					fmt.Println("C11 debug", key, shortName(a.Fn), a.How, a.Write, reach[a.Fn])
				}
			}
			if !written {
				continue
			}
			nGlob++
			cons := "global " + key
			if why, ok := c11Config[key]; ok {
				// the two listed symbol-table variables are listed *because* every entry into the package passes a Once first:
				// that is checked, not assumed
				if strings.HasSuffix(key, ".symTable") || strings.HasSuffix(key, ".symTableLoadError") {
					accFns := map[*ssa.Function]bool{}
					for _, a := range acc {
						accFns[a.Fn] = true
					}
					bad := ""
					// unsafeAt(f): where f can reach the variable without having passed a Once.Do (in f itself, or in the callee
					// through which it reaches it)
					memo := map[*ssa.Function]string{}
					var unsafeAt func(f *ssa.Function, depth int) string
					unsafeAt = func(f *ssa.Function, depth int) string {
						if w, ok := memo[f]; ok {
							return w
						}
						memo[f] = ""
						if f.Blocks == nil || depth > 6 {
							return ""
						}
						res := ""
						eachInstr(f, func(i ssa.Instruction) {
							if res != "" {
								return
							}
							dominated := false
							for _, cs := range callsTo(f, "(*sync.Once).Do") {
								if domInstr(cs, i) {
									dominated = true
								}
							}
							if dominated {
								return
							}
							for _, a := range acc {
								if a.Instr == i {
									res = shortName(f) + " accesses it at " + p.Pos(posOf(i)) + " before any Once.Do"
									return
								}
							}
							ci, ok := i.(ssa.CallInstruction)
							if !ok || calleeName(ci.Common()) == "(*sync.Once).Do" {
								return
							}
							for _, cal := range p.modCallees(ci) {
								touches := accFns[cal]
								for f2 := range p.modReach(cal) {
									if accFns[f2] {
										touches = true
									}
								}
								if !touches {
									continue
								}
								if w := unsafeAt(cal, depth+1); w != "" {
									res = shortName(f) + " reaches it at " + p.Pos(posOf(i)) + " before any Once.Do (" + w + ")"
									return
								}
							}
						})
						memo[f] = res
						return res
					}
					for _, e := range p.FuncsIn(relPkgPath(g.Pkg.Pkg.Path())) {
						if e.Object() == nil || !e.Object().Exported() || e.Parent() != nil || e.Blocks == nil {
							continue
						}
						// exported entry points that other packages of the module actually call
						used := false
						for _, cs := range p.callersOfAny(e) {
							if relPkg(cs.Caller) != relPkg(e) {
								used = true
							}
						}
						if !used {
							continue
						}
						if w := unsafeAt(e, 0); w != "" {
							bad = w
						}
					}
					r.Check(bad == "", "C11.R1", cons, p.Pos(g.Pos()), "listed: "+why+" — every entry point used from other packages passes a Once.Do before it can reach the variable",
						"the lazily loaded symbol table is reached before the sync.Once that publishes it ("+bad+"): concurrent first lookups read and write it unsynchronised, a goroutine can see a half-built table and report a present symbol as missing")
					continue
				}
				r.OK("C11.R1", cons, p.Pos(g.Pos()), "listed configuration: "+why)
				continue
			}
			// classification
			allAtomic, allOnce := true, true
			for _, a := range acc {
				isInit := isPkgInit(a.Fn)
				if isInit {
					continue
				}
				if a.How != "atomic" && a.How != "field load" && a.How != "sync" {
					allAtomic = false
				}
				if a.How == "field load" || a.How == "load" {
					// plain read of a field next to atomics (immutable after init) is fine only if never written post-init
				}
				// a container (map / slice element / field) mutated in place by a function that also runs outside the
				// initialiser is not "written only inside the Once", even if the initialiser can reach that function
				inPlace := a.How == "map update" || a.How == "map delete" || a.How == "element store" || a.How == "field store"
				if !onceInit[a.Fn] || (inPlace && calledOutsideOnce(a.Fn)) {
					if a.Write {
						allOnce = false
					}
				}
			}
			if allAtomic {
				r.OK("C11.R1", cons, p.Pos(g.Pos()), "mutated only through sync/atomic")
				continue
			}
			if allOnce {
				// readers must run after the Once: every reader function calls Once.Do before the read
				okReaders := true
				whyR := ""
				for _, a := range acc {
					if a.Write || onceInit[a.Fn] {
						continue
					}
					dom := false
					for _, cs := range callsTo(a.Fn, "(*sync.Once).Do") {
						if domInstr(cs, a.Instr) {
							dom = true
						}
					}
					if !dom {
						okReaders = false
						whyR = shortName(a.Fn) + " reads it at " + p.Pos(posOf(a.Instr)) + " without a dominating Once.Do"
					}
				}
				if okReaders {
					r.OK("C11.R1", cons, p.Pos(g.Pos()), "written only inside a sync.Once initialiser, every reader runs Once.Do first")
				} else {
					r.Bad("C11.R1", cons, p.Pos(g.Pos()), "once-initialised variable is read before the initialiser is guaranteed to have run: "+whyR)
				}
				continue
			}
			// guarded: find a lock held at every non-init access
			cand := map[string]int{}
			total := 0
			for _, a := range acc {
				isInit := isPkgInit(a.Fn)
				if isInit || a.How == "sync" {
					continue
				}
				total++
				for k := range heldIn(a.Fn)[a.Instr] {
					cand[k]++
				}
			}
			best, bestN := "", -1
			for k, n := range cand {
				if n > bestN || (n == bestN && k < best) {
					best, bestN = k, n
				}
			}
			tryLock := func(lock string) (bool, string) {
				okL, whyL := true, ""
				for _, a := range acc {
					if isPkgInit(a.Fn) || a.How == "sync" {
						continue
					}
					if heldIn(a.Fn)[a.Instr][lock] {
						continue
					}
					if ok, why := p.callersHold(a.Fn, lock, held, sums, map[*ssa.Function]bool{}, api); !ok {
						okL = false
						whyL = a.How + " in " + shortName(a.Fn) + " at " + p.Pos(posOf(a.Instr)) + " without " + shortLock(lock) + " (" + why + ")"
					}
				}
				return okL, whyL
			}
			if best == "" {
				// no access takes a lock itself: maybe every caller holds one of the module's locks
				found := ""
				for _, lk := range allLocks(p) {
					if ok, _ := tryLock(lk); ok {
						found = lk
						break
					}
				}
				if found != "" {
					r.OK("C11.R1", cons, p.Pos(g.Pos()), "every call path to its accesses holds "+shortLock(found))
				} else {
					r.Bad("C11.R1", cons, p.Pos(g.Pos()), "package-level variable is written after initialisation by code reachable from the public API with no lock held, not atomically and not under sync.Once: concurrent builders race on it")
				}
				continue
			}
			okAll := true
			whyG := ""
			for _, a := range acc {
				isInit := isPkgInit(a.Fn)
				if isInit || a.How == "sync" {
					continue
				}
				if heldIn(a.Fn)[a.Instr][best] {
					continue
				}
				// deferred closures run while the lock taken by the parent is still held if the parent defers the unlock after them
				if ok, why := p.callersHold(a.Fn, best, held, sums, map[*ssa.Function]bool{}, api); !ok {
					okAll = false
					whyG = a.How + " in " + shortName(a.Fn) + " at " + p.Pos(posOf(a.Instr)) + " without " + shortLock(best) + " (" + why + ")"
				}
			}
			r.Check(okAll, "C11.R1", cons, p.Pos(g.Pos()), "every access holds "+shortLock(best),
				"shared variable is accessed without its lock "+shortLock(best)+": "+whyG)
		}
	}
	r.Stat("globals_written_after_init", nGlob)

	// ---- R2 raw text access under the memory lock
	memLock := ""
	for _, f := range p.FuncsIn(memPkg) {
		eachInstr(f, func(i ssa.Instruction) {
			if k, _, _, ok := lockOfCall(i); ok && strings.Contains(k, memPkg) {
				memLock = k
			}
		})
	}
	if memLock == "" {
		r.Und("C11.R2", "memory lock", "", "package memory takes no package-level lock")
	} else {
		for _, f := range p.FuncsIn(memPkg) {
			h := heldIn(f)
			eachInstr(f, func(i ssa.Instruction) {
				cl, ok := i.(*ssa.Call)
				if !ok {
					return
				}
				isCopy := false
				if bi, ok := cl.Call.Value.(*ssa.Builtin); ok && bi.Name() == "copy" {
					// involves the raw view?
					for _, a := range cl.Call.Args {
						for _, at := range origins(a) {
							if cl0, isCl := at.V.(*ssa.Call); at.Kind == "call" && isCl && isRawAccessFn(staticCallee(cl0.Common())) {
								isCopy = true
							}
						}
					}
				}
				cn := calleeName(cl.Common())
				isProt := cn == "syscall.Mprotect" || (cn == "syscall.Syscall" && func() bool { n, ok := constInt(cl.Call.Args[0]); return ok && (n == 10 || n == 226) }())
				if !isCopy && !isProt {
					return
				}
				what := "raw text copy"
				if isProt {
					what = "mprotect"
				}
				cons := what + " in " + shortName(f)
				if h[i][memLock] {
					r.OK("C11.R2", cons, p.Pos(posOf(i)), "memory lock held")
					return
				}
				ok2, why := p.callersHold(f, memLock, held, sums, map[*ssa.Function]bool{}, api)
				// exported helpers of memory are API for the rest of the module: their module callers must hold it
				if !ok2 && strings.Contains(why, "public API") {
					ok2 = false
				}
				r.Check(ok2, "C11.R2", cons, p.Pos(posOf(i)), "every caller holds the memory lock",
					what+" on the text segment without the memory lock ("+why+"): a concurrent writer/reader of the same page races")
			})
		}
		// writers take the write lock, readers at least the read lock
		for _, w := range p.textWriters() {
			if w.Blocks == nil {
				continue
			}
			hasW := false
			delegates := false
			eachInstr(w, func(i ssa.Instruction) {
				if k, a, wr, ok := lockOfCall(i); ok && a && wr && k == memLock {
					hasW = true
				}
			})
			if strings.Contains(w.Name(), "NoLock") {
				delegates = true
			}
			if delegates {
				// NoLock variant: every module caller must hold the lock or be package init
				ok2, why := p.callersHold(w, memLock, held, sums, map[*ssa.Function]bool{}, api)
				r.Check(ok2, "C11.R2", shortName(w)+" callers hold the memory lock", p.Pos(w.Pos()), "lock-free variant only called with the lock held / during init", "the lock-free writer variant is called without the memory lock: "+why)
				continue
			}
			r.Check(hasW, "C11.R2", shortName(w)+" takes the memory write lock", p.Pos(w.Pos()), "exclusive lock around the write", "the text writer does not take the memory lock exclusively")
		}
	}

	// ---- R3 entry-jump writes under the patch lock
	patchLock := ""
	for _, f := range p.FuncsIn("internal/patch") {
		eachInstr(f, func(i ssa.Instruction) {
			if k, _, _, ok := lockOfCall(i); ok && strings.Contains(k, "internal/patch") {
				patchLock = k
			}
		})
	}
	if patchLock == "" {
		r.Und("C11.R3", "patch lock", "", "package patch takes no package-level lock")
		return
	}
	for _, s := range p.textWriteSites() {
		if relPkg(s.Fn) != "internal/patch" {
			continue
		}
		cons := s.Kind + " write in " + shortName(s.Fn)
		h := heldIn(s.Fn)
		if h[s.Call][patchLock] {
			r.OK("C11.R3", cons, p.Pos(posOf(s.Call)), "patch lock held at the write")
			continue
		}
		// callers must hold it; the two rollback calls on a never-applied guard are exempt (applied==false ⇒ no write)
		okAll, whyAll := true, ""
		for _, cs := range p.callersOfAny(s.Fn) {
			hc := heldIn(cs.Caller)
			if hc[cs.Instr][patchLock] {
				continue
			}
			if ok2, _ := p.callersHold(cs.Caller, patchLock, held, sums, map[*ssa.Function]bool{}, api); ok2 {
				continue
			}
			if s.Kind == "restore" && relPkg(cs.Caller) == "internal/proxy" && errNonNilPath(cs.Instr) {
				continue // rollback of a guard that was never applied: Unpatch is a no-op there
			}
			if relPkg(cs.Caller) == "internal/patch" && (cs.Caller.Name() == "UnpatchAll" || cs.Caller.Name() == "Unpatch" || cs.Caller.Name() == "UnpatchInstanceMethod") && !reach[cs.Caller] {
				continue // legacy package API not reachable from the mocker API
			}
			okAll = false
			whyAll = "called from " + shortName(cs.Caller) + " at " + p.Pos(posOf(cs.Instr)) + " without " + shortLock(patchLock)
		}
		r.Check(okAll, "C11.R3", cons, p.Pos(posOf(s.Call)), "every call path holds the patch lock",
			"an entry-jump write can run without the patch lock ("+whyAll+"): two builders patching/unpatching concurrently interleave table updates and code writes")
	}
	// the installer holds the lock across table update + capture
	if inst := patchInstaller(p); inst != nil {
		h := heldIn(inst)
		okI := true
		eachInstr(inst, func(i ssa.Instruction) {
			switch i.(type) {
			case *ssa.MapUpdate, *ssa.Lookup:
				if !h[i][patchLock] {
					okI = false
				}
			}
		})
		r.Check(okI, "C11.R3", "installer table access under the patch lock", p.Pos(inst.Pos()), "lookup/update with the lock held", "the patch table is read or updated by the installer without the patch lock")
	}
	// R4
	for _, w := range p.textWriters() {
		if w.Blocks == nil {
			continue
		}
		for _, pc := range protCallsIn(p, w, map[*ssa.Function]bool{p.Fn(memPkg, "mProtectCrossPage"): true}) {
			if v, ok := constInt(pc.Prot); ok && v&2 != 0 {
				r.Check(v&4 != 0, "C11.R4", "writable window keeps EXEC in "+shortName(w), p.Pos(posOf(pc.Call)), "R|W|X", "pages lose PROT_EXEC while being written: concurrent callers executing on the page crash")
			}
		}
	}
}

func shortLock(k string) string { return strings.TrimPrefix(k, Mod+"/") }

// callersOfAny: static and module-interface call sites of fn.
func (p *Prog) callersOfAny(fn *ssa.Function) []callSite {
	var out []callSite
	for _, f := range p.Funcs {
		eachInstr(f, func(i ssa.Instruction) {
			if ci, ok := i.(ssa.CallInstruction); ok {
				for _, cal := range p.modCallees(ci) {
					if cal == fn {
						out = append(out, callSite{f, ci})
					}
				}
			}
		})
	}
	return out
}

// errNonNilPath: the instruction is on a path guarded by some err != nil.
func errNonNilPath(i ssa.Instruction) bool {
	for _, g := range guardsAt(i.Block()) {
		if bo, ok := g.Cond.(*ssa.BinOp); ok && bo.Op == token.NEQ && g.Pol && (isNilConst(bo.X) || isNilConst(bo.Y)) {
			if types.Identical(bo.X.Type(), types.Universe.Lookup("error").Type()) {
				return true
			}
		}
	}
	return false
}

// allLocks lists the package-level locks the module takes anywhere.
func allLocks(p *Prog) []string {
	set := map[string]bool{}
	for _, f := range p.Funcs {
		eachInstr(f, func(i ssa.Instruction) {
			if k, _, _, ok := lockOfCall(i); ok {
				set[k] = true
			}
		})
	}
	var out []string
	for k := range set {
		out = append(out, k)
	}
	sort.Strings(out)
	return out
}
