#!/usr/bin/env python3
"""mcrecheck.py <seed> [-j J] — re-run all 20 checks with the current goomvet on the campaign survivors that no check fired on;
rewrites their 'fired' field in /verif/mutcampaign/<seed>.jsonl (development aid)."""
import sys, os, json, subprocess, tempfile, queue, shutil, concurrent.futures as cf
V='/verif'; seed=sys.argv[1]; J=8
if '-j' in sys.argv: J=int(sys.argv[sys.argv.index('-j')+1])
env=dict(os.environ, GOFLAGS='-mod=mod', GOPROXY='off', GOSUMDB='off', GOTOOLCHAIN='local', GOWORK='off')
path=V+'/mutcampaign/%s.jsonl'%seed
rows=[json.loads(l) for l in open(path)]
base=tempfile.mkdtemp(prefix='goom-mcre-')
pool=queue.Queue()
for i in range(J):
    t=os.path.join(base,'w%d'%i)
    subprocess.run(['git','-C','/repo','worktree','add','--detach','-f',t,'HEAD'],stdout=subprocess.DEVNULL,stderr=subprocess.DEVNULL,check=True)
    pool.put(t)
def work(k):
    r=rows[k]
    t=pool.get()
    try:
        subprocess.run(['git','-C',t,'checkout','-q','--','.']); subprocess.run(['git','-C',t,'clean','-fdq'])
        pf=os.path.join(base,'p%d.diff'%k); open(pf,'w').write(r['diff'])
        if subprocess.run(['git','-C',t,'apply',pf],stderr=subprocess.DEVNULL).returncode!=0:
            return k,None
        ev=tempfile.mkdtemp(prefix='ev-',dir=base)
        o=subprocess.run([V+'/bin/goomvet','-property','all','-tier','quick','-repo',t,'-evidence',ev],capture_output=True,text=True,env=env)
        shutil.rmtree(ev,ignore_errors=True)
        fired=[l.split()[1] for l in o.stdout.splitlines() if l.startswith('RESULT') and 'rc=0' not in l]
        return k,fired
    finally:
        pool.put(t)
todo=[k for k,r in enumerate(rows) if r['status']=='survivor' and not r['fired']]
with cf.ThreadPoolExecutor(J) as ex:
    for k,f in ex.map(work,todo):
        if f is None: rows[k]['fired']=['(does not apply any more)']
        else: rows[k]['fired']=f
for i in range(J):
    subprocess.run(['git','-C','/repo','worktree','remove','--force',os.path.join(base,'w%d'%i)],stdout=subprocess.DEVNULL,stderr=subprocess.DEVNULL)
shutil.rmtree(base,ignore_errors=True)
open(path,'w').write(''.join(json.dumps(r)+'\n' for r in rows))
sv=[r for r in rows if r['status']=='survivor']
print(len(sv),'survivors;',len([r for r in sv if r['fired']]),'detected;',len([r for r in sv if not r['fired']]),'undetected')
