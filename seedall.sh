#!/bin/bash
# runs every kept seed in /verif/seeded against its property's check (quick tier); prints a table
cd /verif
for d in seeded/C*/; do
  id=$(basename $d); prop=$(python3 -c "import json;print(json.load(open('$d/meta.json'))['breaks_property'])")
  out=$(./seedtest.sh $d $prop ${TIER:-quick} 2>&1); rc=$?
  rule=$(echo "$out" | grep -oE "(VIOLATED|UNDECIDED) C[0-9]+\.[A-Za-z0-9]+" | sort -u | tr '\n' ' ')
  if [ $rc -eq 1 ]; then echo "DETECTED $id ($prop): $rule"; else echo "MISSED   $id ($prop) rc=$rc"; fi
done
